package cluster

// In-package helper for the C33 (relocation accounting) scenario. Overlay only;
// not instrumented.

import "time"

// VerifEmitNodeLeft queues one more NodeLeft topology event for addr on the
// engine's Events() channel, exactly as emitNodeLeftLocked does but without the
// once-per-address filter: a duplicate / re-delivered departure notification at
// the boundary between the cluster engine and the actor system. Non-blocking;
// false when the engine is not a *cluster, has no channel, the channel is full
// or already closed.
func VerifEmitNodeLeft(c Cluster, addr string, ts time.Time) (ok bool) {
	x, isCluster := c.(*cluster)
	if !isCluster || x == nil || x.events == nil {
		return false
	}
	defer func() {
		if recover() != nil {
			ok = false
		}
	}()
	select {
	case x.events <- &Event{Payload: &NodeLeftEvent{Address: addr, Timestamp: ts}, Type: NodeLeft}:
		return true
	default:
		return false
	}
}

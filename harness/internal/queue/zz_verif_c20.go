package queue

import (
	"fmt"
	"strings"
)

// VerifDump renders the linked structure for C20 failure reports: the chain
// from head and the chain from tail, nodes named in order of first appearance.
// Plain reads: call it only while no other thread runs (scheduler hooks, after
// the run).
func (q *Queue) VerifDump() string {
	names := map[*item]string{}
	name := func(n *item) string {
		if s, ok := names[n]; ok {
			return s
		}
		s := fmt.Sprintf("n%d", len(names))
		names[n] = s
		return s
	}
	chain := func(n *item) string {
		var b strings.Builder
		seen := map[*item]bool{}
		for k := 0; n != nil && k < 40; k++ {
			if k > 0 {
				b.WriteString("->")
			}
			switch v := n.v.(type) {
			case nil:
				b.WriteString(name(n) + "()")
			case interface{ Payload() any }:
				fmt.Fprintf(&b, "%s(%v)", name(n), v.Payload())
			default:
				fmt.Fprintf(&b, "%s(%v)", name(n), v)
			}
			if seen[n] {
				b.WriteString(" CYCLE")
				return b.String()
			}
			seen[n] = true
			n = (*item)(n.next)
		}
		b.WriteString("->nil")
		return b.String()
	}
	return fmt.Sprintf("len=%d head: %s | tail: %s", q.len, chain((*item)(q.head)), chain((*item)(q.tail)))
}

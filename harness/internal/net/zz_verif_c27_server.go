package net

import (
	"fmt"
	"net"
	"reflect"
	"sync"

	"google.golang.org/protobuf/reflect/protoreflect"
)

// VerifNewProtoServerNoBallast is NewProtoServer + NewTCPServer without the
// 20 MiB GC ballast that NewTCPServer allocates (and the runtime zeroes) before
// it looks at any option: in a micro-simulation that builds one server per run
// the memclr is 85 % of the run's CPU time (23 ms of 27 ms). Everything else is
// the stock construction; the first call checks that against the real
// constructors field by field, so a new default in NewTCPServer / NewProtoServer
// cannot go unnoticed.
func VerifNewProtoServerNoBallast(listenAddr string, opts ...ProtoServerOption) (*ProtoServer, error) {
	verifLightOnce.Do(verifLightCheck)
	if verifLightErr != nil {
		return nil, verifLightErr
	}
	return verifLightProtoServer(listenAddr, opts...)
}

func verifLightProtoServer(listenAddr string, opts ...ProtoServerOption) (*ProtoServer, error) {
	ps := &ProtoServer{
		handlers:     make(map[protoreflect.FullName]ProtoHandler),
		serializer:   NewProtoSerializer(),
		framePool:    NewFramePool(),
		maxFrameSize: defaultMaxFrameSize,
	}
	for _, opt := range opts {
		opt(ps)
	}
	ps.serverOpts = append(ps.serverOpts, WithRequestHandler(ps.handleConn))

	tcpAddr, err := net.ResolveTCPAddr("tcp", listenAddr)
	if err != nil {
		return nil, fmt.Errorf("resolving address %q: %w", listenAddr, err)
	}
	var s *TCPServer
	s = &TCPServer{
		listenAddr:   tcpAddr,
		listenConfig: defaultListenConfig,
		loops:        8,
		connStructPool: sync.Pool{
			New: func() any {
				conn := s.connectionCreator()
				conn.SetServer(s)
				return conn
			},
		},
	}
	s.connectionCreator = func() Connection { return &TCPConn{} }
	for _, o := range ps.serverOpts {
		o(s)
	}
	ps.server = s
	return ps, nil
}

var (
	verifLightOnce sync.Once
	verifLightErr  error
)

// verifLightCheck compares every plainly comparable field of the light
// construction with the stock one (functions, pools, the serializer/frame-pool
// instances and the ballast itself are skipped).
func verifLightCheck() {
	const addr = "127.0.0.1:1"
	want, err := NewProtoServer(addr)
	if err != nil {
		verifLightErr = err
		return
	}
	got, err := verifLightProtoServer(addr)
	if err != nil {
		verifLightErr = err
		return
	}
	cmp := func(what string, a, b reflect.Value, skip map[string]bool) {
		for i := 0; i < a.NumField(); i++ {
			name := a.Type().Field(i).Name
			fa, fb := a.Field(i), b.Field(i)
			if skip[name] {
				continue
			}
			ok := true
			switch fa.Kind() {
			case reflect.Bool:
				ok = fa.Bool() == fb.Bool()
			case reflect.Int, reflect.Int8, reflect.Int16, reflect.Int32, reflect.Int64:
				ok = fa.Int() == fb.Int()
			case reflect.Uint, reflect.Uint8, reflect.Uint16, reflect.Uint32, reflect.Uint64:
				ok = fa.Uint() == fb.Uint()
			case reflect.Slice, reflect.Map:
				ok = fa.Len() == fb.Len() && fa.IsNil() == fb.IsNil()
			case reflect.Pointer, reflect.Interface, reflect.Func:
				ok = fa.IsNil() == fb.IsNil()
			case reflect.Struct:
				ok = fmt.Sprintf("%v", fa) == fmt.Sprintf("%v", fb) // atomics, WaitGroup: zero state
			}
			if !ok && verifLightErr == nil {
				verifLightErr = fmt.Errorf("VerifNewProtoServerNoBallast is out of date: %s.%s differs from the stock constructor (%v vs %v)", what, name, fa, fb)
			}
		}
	}
	cmp("ProtoServer", reflect.ValueOf(got).Elem(), reflect.ValueOf(want).Elem(), map[string]bool{"server": true})
	cmp("TCPServer", reflect.ValueOf(got.server).Elem(), reflect.ValueOf(want.server).Elem(), map[string]bool{"ballast": true, "connStructPool": true})
	if got.server.listenAddr.String() != want.server.listenAddr.String() || got.server.listenConfig != want.server.listenConfig {
		verifLightErr = fmt.Errorf("VerifNewProtoServerNoBallast is out of date: listen address/config differ")
	}
}

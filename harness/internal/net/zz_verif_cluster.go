package net

// In-package harness support for multi-node runs (overlay only; not instrumented).

// VerifResetProtoTypeCache empties the process-level message-type cache of the
// proto serializer. A cache miss costs one more scheduling point than a hit, so
// a run that inherits the cache of earlier runs in its process takes a
// different schedule than the same seed in a fresh process (found with
// `vcheck det C30`: 25 of 30 seeds diverged). Called at the start of every
// cluster run, which makes every run start from the same (empty) cache.
func VerifResetProtoTypeCache() {
	protoMessageTypes.Range(func(k, _ any) bool {
		protoMessageTypes.Delete(k)
		return true
	})
	negativeTypeCount.Store(0)
}

import json,sys
b=json.load(open('/root/.vp/BASELINE.json'))
stable=set(b['stable_pass'])
res={}
panics=[]
for l in open(sys.argv[1]):
    try: e=json.loads(l)
    except: continue
    if e.get('Action')=='output' and ('panic:' in e.get('Output','') or 'fatal error' in e.get('Output','')): panics.append((e['Package'],e.get('Test'),e['Output'].strip()[:200]))
    if 'Test' in e and e.get('Action') in('pass','fail','skip'):
        res[e['Package']+'::'+e['Test']]=e['Action']
missing=[t for t in stable if t not in res]
failed=[t for t in stable if res.get(t)=='fail']
print('stable',len(stable),'passed',sum(1 for t in stable if res.get(t)=='pass'),'failed',len(failed),'missing',len(missing))
from collections import Counter
print('missing by pkg',Counter(t.split('::')[0] for t in missing).most_common(8))
for t in sorted(failed)[:80]: print('FAIL',t)
for p in panics[:10]: print('PANIC',p)

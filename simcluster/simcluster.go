// Package simcluster is a single-copy linearizable registry + membership view
// standing in for olric/memberlist in simulated runs.
package simcluster

import (
	"context"
	"encoding/json"
	"sort"
	"sync"
	"time"

	"github.com/redis/go-redis/v9"
	"github.com/tochemey/olric"

	"github.com/tochemey/goakt/v4/discovery"
	"github.com/tochemey/goakt/v4/internal/cluster"
	"github.com/tochemey/goakt/v4/zzverif/simrt"
)

type entry struct {
	val    []byte
	expire time.Time
}

type member struct {
	node  *discovery.Node
	birth int64
	ch    chan *redis.Message
}

type Backend struct {
	mu      sync.Mutex
	kv      map[string]entry
	members []*member
	seq     int64
	Ops     map[string]int
}

func Enable() *Backend {
	b := &Backend{kv: map[string]entry{}, Ops: map[string]int{}}
	cluster.SimBackendFor = func(*discovery.Node) cluster.SimBackend { return b }
	return b
}

func Disable() { cluster.SimBackendFor = nil }

func (b *Backend) op(name string) {
	simrt.Yield(-200)
	b.mu.Lock()
	b.Ops[name]++
	b.mu.Unlock()
}

func (b *Backend) Join(node *discovery.Node) <-chan *redis.Message {
	b.op("join")
	b.mu.Lock()
	defer b.mu.Unlock()
	b.seq++
	m := &member{node: node, birth: b.seq, ch: make(chan *redis.Message, 256)}
	b.members = append(b.members, m)
	return m.ch
}

func (b *Backend) Leave(node *discovery.Node) {
	b.op("leave")
	b.mu.Lock()
	defer b.mu.Unlock()
	for i, m := range b.members {
		if m.node.PeersAddress() == node.PeersAddress() {
			b.members = append(b.members[:i], b.members[i+1:]...)
			return
		}
	}
}

func (b *Backend) live(key string) (entry, bool) {
	e, ok := b.kv[key]
	if ok && !e.expire.IsZero() && !time.Now().Before(e.expire) {
		delete(b.kv, key)
		return entry{}, false
	}
	return e, ok
}

func (b *Backend) Put(ctx context.Context, node, key string, value []byte, nx bool, ttl time.Duration) error {
	b.op("put")
	b.mu.Lock()
	defer b.mu.Unlock()
	if nx {
		if _, ok := b.live(key); ok {
			return olric.ErrKeyFound
		}
	}
	e := entry{val: append([]byte(nil), value...)}
	if ttl > 0 {
		e.expire = time.Now().Add(ttl)
	}
	b.kv[key] = e
	return nil
}

func (b *Backend) Get(ctx context.Context, node, key string) ([]byte, error) {
	b.op("get")
	b.mu.Lock()
	defer b.mu.Unlock()
	e, ok := b.live(key)
	if !ok {
		return nil, olric.ErrKeyNotFound
	}
	return e.val, nil
}

func (b *Backend) Delete(ctx context.Context, node, key string) error {
	b.op("delete")
	b.mu.Lock()
	defer b.mu.Unlock()
	delete(b.kv, key)
	return nil
}

func (b *Backend) Keys(ctx context.Context, node string) ([]string, error) {
	b.op("keys")
	b.mu.Lock()
	defer b.mu.Unlock()
	keys := make([]string, 0, len(b.kv))
	for k := range b.kv {
		keys = append(keys, k)
	}
	sort.Strings(keys)
	return keys, nil
}

func (b *Backend) Incr(ctx context.Context, node, key string, delta int) (int, error) {
	b.op("incr")
	b.mu.Lock()
	defer b.mu.Unlock()
	n := 0
	if e, ok := b.kv[key]; ok {
		_ = json.Unmarshal(e.val, &n)
	}
	n += delta
	v, _ := json.Marshal(n)
	b.kv[key] = entry{val: v}
	return n, nil
}

func (b *Backend) Members(ctx context.Context, node string) ([]olric.Member, error) {
	b.op("members")
	b.mu.Lock()
	defer b.mu.Unlock()
	out := make([]olric.Member, 0, len(b.members))
	for i, m := range b.members {
		meta, _ := json.Marshal(m.node)
		out = append(out, olric.Member{Name: m.node.PeersAddress(), ID: uint64(m.birth), Birthdate: m.birth, Coordinator: i == 0, Meta: string(meta)})
	}
	return out, nil
}

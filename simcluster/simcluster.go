// Package simcluster is the simulated cluster backend: a single-copy
// linearizable key/value registry with TTL on the fake clock, a membership view
// whose coordinator is the oldest live member, and the cluster-events pub/sub
// feed (node join / left, rebalance start / complete) that olric would publish.
// It stands in for olric + memberlist below the record primitives of the real
// internal/cluster.cluster. Every operation is a scheduling point and a fault
// point (error, slow answer). Not instrumented: code between the explicit simrt
// scheduling points runs atomically.
package simcluster

import (
	"context"
	"encoding/json"
	"errors"
	"sort"
	"time"

	"github.com/redis/go-redis/v9"
	"github.com/tochemey/olric"
	"github.com/tochemey/olric/events"

	"github.com/tochemey/goakt/v4/discovery"
	"github.com/tochemey/goakt/v4/zzverif/simrt"
)

// Config selects the registry fault kinds (per mille, drawn from the fault tape).
type Config struct {
	ErrPerm  int           // an operation fails with ErrInjected
	SlowPerm int           // an operation takes SlowFor of simulated time (or until the caller's deadline)
	SlowFor  time.Duration
	// OnlyOps restricts faults to the named operations (put, putnx, get, delete, keys, incr, members); empty = all.
	OnlyOps map[string]bool
}

// ErrInjected is the error injected registry operations fail with.
var ErrInjected = errors.New("simcluster: injected registry failure")

type entry struct {
	val    []byte
	expire time.Time
}

type member struct {
	node  *discovery.Node
	addr  string
	birth int64
	ch    chan *redis.Message
}

type Backend struct {
	F       *simrt.Tape
	Cfg     Config
	kv      map[string]entry
	members []*member
	seq     int64
	Epoch   uint64
	Ops     map[string]int
	Faults  map[string]int
	down    map[string]bool // nodes whose registry calls all fail (crashed or cut off)
	lagging map[string][]olric.Member // nodes that see a stale member list
	FaultsOn bool
	// AutoEvents: publish join/left + rebalance events automatically on Join/Leave/Crash.
	AutoEvents bool
	OnOp       func(node, op, key string) // observation hook for scenarios
}

func New(f *simrt.Tape, cfg Config) *Backend {
	return &Backend{F: f, Cfg: cfg, kv: map[string]entry{}, Ops: map[string]int{}, Faults: map[string]int{}, down: map[string]bool{}, lagging: map[string][]olric.Member{}, AutoEvents: true}
}

// point is the scheduling + fault point at the start of every operation.
func (b *Backend) point(ctx context.Context, node, op, key string) error {
	simrt.Yield(-200)
	b.Ops[op]++
	if b.OnOp != nil {
		b.OnOp(node, op, key)
	}
	if b.down[node] {
		b.Faults["registry-unreachable"]++
		return ErrInjected
	}
	if !b.FaultsOn || (len(b.Cfg.OnlyOps) > 0 && !b.Cfg.OnlyOps[op]) {
		return nil
	}
	if b.Cfg.ErrPerm > 0 && b.F.Draw(1000) < b.Cfg.ErrPerm {
		b.Faults["registry-error:"+op]++
		return ErrInjected
	}
	if b.Cfg.SlowPerm > 0 && b.F.Draw(1000) < b.Cfg.SlowPerm {
		b.Faults["registry-slow:"+op]++
		t := time.NewTimer(b.Cfg.SlowFor)
		defer t.Stop()
		select {
		case <-t.C:
			simrt.Yield(-201)
		case <-ctx.Done():
			simrt.Yield(-201)
			return ctx.Err()
		}
	}
	return nil
}

func (b *Backend) live(key string) (entry, bool) {
	e, ok := b.kv[key]
	if ok && !e.expire.IsZero() && !time.Now().Before(e.expire) {
		delete(b.kv, key)
		return entry{}, false
	}
	return e, ok
}

// ---- cluster.SimBackend

func (b *Backend) Join(node *discovery.Node) <-chan *redis.Message {
	simrt.Yield(-202)
	b.Ops["join"]++
	b.seq++
	m := &member{node: node, addr: node.PeersAddress(), birth: b.seq, ch: make(chan *redis.Message, 1024)}
	b.members = append(b.members, m)
	delete(b.down, m.addr)
	if b.AutoEvents {
		b.Epoch++
		b.Publish("", RebalanceStart(b.Epoch, "node-join", m.addr))
		b.Publish("", NodeJoin(m.addr))
		b.Publish("", RebalanceComplete(b.Epoch))
	}
	return m.ch
}

func (b *Backend) remove(addr string) bool {
	for i, m := range b.members {
		if m.addr == addr {
			b.members = append(b.members[:i], b.members[i+1:]...)
			return true
		}
	}
	return false
}

func (b *Backend) Leave(node *discovery.Node) {
	simrt.Yield(-203)
	b.Ops["leave"]++
	addr := node.PeersAddress()
	if b.remove(addr) && b.AutoEvents {
		b.Epoch++
		b.Publish("", NodeLeft(addr))
		b.Publish("", RebalanceStart(b.Epoch, "node-left", addr))
		b.Publish("", RebalanceComplete(b.Epoch))
	}
}

func (b *Backend) Put(ctx context.Context, node, key string, value []byte, nx bool, ttl time.Duration) error {
	op := "put"
	if nx {
		op = "putnx"
	}
	if err := b.point(ctx, node, op, key); err != nil {
		return err
	}
	if nx {
		if _, ok := b.live(key); ok {
			return olric.ErrKeyFound
		}
	}
	e := entry{val: append([]byte(nil), value...)}
	if ttl > 0 {
		e.expire = time.Now().Add(ttl)
	}
	b.kv[key] = e
	return nil
}

func (b *Backend) Get(ctx context.Context, node, key string) ([]byte, error) {
	if err := b.point(ctx, node, "get", key); err != nil {
		return nil, err
	}
	e, ok := b.live(key)
	if !ok {
		return nil, olric.ErrKeyNotFound
	}
	return e.val, nil
}

func (b *Backend) Delete(ctx context.Context, node, key string) error {
	if err := b.point(ctx, node, "delete", key); err != nil {
		return err
	}
	delete(b.kv, key)
	return nil
}

func (b *Backend) Keys(ctx context.Context, node string) ([]string, error) {
	if err := b.point(ctx, node, "keys", ""); err != nil {
		return nil, err
	}
	keys := make([]string, 0, len(b.kv))
	for k := range b.kv {
		if _, ok := b.live(k); ok {
			keys = append(keys, k)
		}
	}
	sort.Strings(keys)
	return keys, nil
}

func (b *Backend) Incr(ctx context.Context, node, key string, delta int) (int, error) {
	if err := b.point(ctx, node, "incr", key); err != nil {
		return 0, err
	}
	n := 0
	if e, ok := b.kv[key]; ok {
		_ = json.Unmarshal(e.val, &n)
	}
	n += delta
	v, _ := json.Marshal(n)
	b.kv[key] = entry{val: v}
	return n, nil
}

func (b *Backend) memberList() []olric.Member {
	out := make([]olric.Member, 0, len(b.members))
	for i, m := range b.members {
		meta, _ := json.Marshal(m.node)
		out = append(out, olric.Member{Name: m.addr, ID: uint64(m.birth), Birthdate: m.birth, Coordinator: i == 0, Meta: string(meta)})
	}
	return out
}

func (b *Backend) Members(ctx context.Context, node string) ([]olric.Member, error) {
	if err := b.point(ctx, node, "members", ""); err != nil {
		return nil, err
	}
	if stale, ok := b.lagging[node]; ok {
		b.Faults["stale-member-view"]++
		return stale, nil
	}
	return b.memberList(), nil
}

// ---- scenario-side controls

// Snapshot returns a copy of the live registry (key -> value).
func (b *Backend) Snapshot() map[string][]byte {
	out := map[string][]byte{}
	for k := range b.kv {
		if e, ok := b.live(k); ok {
			out[k] = e.val
		}
	}
	return out
}

// MemberAddrs lists the live members, oldest (coordinator) first.
func (b *Backend) MemberAddrs() []string {
	var l []string
	for _, m := range b.members {
		l = append(l, m.addr)
	}
	return l
}

// Crash removes a member without its cooperation: its registry calls fail from
// now on and the survivors are told (unless AutoEvents is off).
func (b *Backend) Crash(addr string, completeRebalance bool) {
	b.down[addr] = true
	b.Faults["node-crash"]++
	if b.remove(addr) && b.AutoEvents {
		b.Epoch++
		b.Publish("", NodeLeft(addr))
		b.Publish("", RebalanceStart(b.Epoch, "node-left", addr))
		if completeRebalance {
			b.Publish("", RebalanceComplete(b.Epoch))
		}
	}
}

// SetDown makes every registry call of a node fail (partition from the registry).
func (b *Backend) SetDown(addr string, down bool) {
	if down {
		b.down[addr] = true
	} else {
		delete(b.down, addr)
	}
}

// FreezeView makes a node keep seeing the current member list (leadership lag).
func (b *Backend) FreezeView(addr string, on bool) {
	if on {
		b.lagging[addr] = b.memberList()
	} else {
		delete(b.lagging, addr)
	}
}

// Publish delivers a cluster event payload to one member ("" = all members).
func (b *Backend) Publish(to string, payload string) {
	for _, m := range b.members {
		if to != "" && m.addr != to {
			continue
		}
		select {
		case m.ch <- &redis.Message{Channel: events.ClusterEventsChannel, Payload: payload}:
		default:
			b.Faults["event-channel-full"]++
		}
	}
}

func mustJSON(v any) string {
	p, _ := json.Marshal(v)
	return string(p)
}

func NodeJoin(addr string) string {
	return mustJSON(events.NodeJoinEvent{Kind: events.KindNodeJoinEvent, Source: "sim", NodeJoin: addr, Timestamp: time.Now().UnixNano()})
}

func NodeLeft(addr string) string {
	return mustJSON(events.NodeLeftEvent{Kind: events.KindNodeLeftEvent, Source: "sim", NodeLeft: addr, Timestamp: time.Now().UnixNano()})
}

func RebalanceStart(epoch uint64, reason, node string) string {
	return mustJSON(events.RebalanceStartEvent{Kind: events.KindRebalanceStartEvent, Source: "sim", Epoch: epoch, Reason: reason, Node: node, Timestamp: time.Now().UnixNano()})
}

func RebalanceComplete(epoch uint64) string {
	return mustJSON(events.RebalanceCompleteEvent{Kind: events.KindRebalanceCompleteEvent, Source: "sim", Epoch: epoch, Timestamp: time.Now().UnixNano()})
}
